"""Property -> rules registry (DESIGN.md section 4)."""
import functools

from . import runner
from . import r_xml as X
from . import r_tables as T
from . import r_sib as S
from . import r_flow as W
from . import r_more as M
from . import r_c06 as Z
from . import r_ptg as G
from . import r_fmt as Q
from . import r_c11 as D
from . import r_witness as N
from . import r_seed2 as U
from . import r_vba as V
from . import r_seed3 as U3


def part(fn, **kw):
    p = functools.partial(fn, **kw)
    p.__name__ = fn.__name__
    return p


def _p(explanation, not_decided, rules, assumptions=None):
    return {"explanation": explanation, "not_decided": not_decided, "rules": rules,
            "assumptions": (assumptions or []) + ["64-bit usize", "the audited_safe.json reasons still hold for keys that did not change"]}


def registry():
    R = {}
    R["C01"] = _p(
        "Decides structural clauses of C01 on the typed HIR of src/xlsx: the two cell walkers move the row/column cursor identically (R-SIB-XLSX); a <c> with an `r` attribute is reported at the (row, col) that attribute decodes to, in that order, and otherwise at the running cursor (R-CELLPOS); the declared <dimension> only sizes capacity hints (R-DIM); running min/max of the bounding box are updated independently (R-MINMAX); element names are matched prefix-insensitively and like with like (R-NS); parts are opened only through the case-insensitive resolver (R-PART); the `t` attribute maps to the documented variants (R-TAB-T) and error literals to error kinds (R-TAB-ERR); shared-string and style indices are parsed as usize (R-IDXWIDTH); Empty cells are filtered before every push (R-TIGHT) and Empty means exactly the Empty variant (R-EMPTYDEF); readers expand empty elements and never trim (R-XMLCFG); the shared-string table gets one entry per <si> (R-SST); every Text/CData piece of an element is unescaped and appended, never assigned (R-CDATA); phonetic runs never reach the value of a string (R-RPH); attributes are looked up by their full name (R-ATTRKEY); the string helper leaves the reader behind its element (R-STRDRAIN); one style entry per <xf> (R-SST cellXfs); date values keep value, flavour and date system (R-DTNEW).",
        "A1 -> (row, col) arithmetic, number parsing, relationship-target normalisation, the zip layer; an identical edit applied to both walkers",
        [S.r_sib_xlsx, W.r_dim, X.r_ns, X.r_part, T.r_tab_t, T.r_tab_err, S.r_tight, X.r_xmlcfg, part(W.r_sst, only=["xlsx shared"]), W.r_minmax, X.r_cdata, U.r_cellpos, U.r_idxwidth, U.r_emptydef, X.r_rph, U3.r_attrkey, U3.r_strdrain, U3.r_dtnew, part(W.r_sst, only=["cellXfs"])])
    R["C02"] = _p(
        "Decides structural clauses of C02 on src/xls.rs: the sheet-substream dispatch has an arm feeding the cell vector for each record kind the property names (R-TAB-REC); BoolErr / FormulaValue error codes follow MS-XLS BErr (R-TAB-ERR); every length guard that raises Len { expected: E } is exactly `len < E` (R-LENGUARD); the RK divide-by-100 flag divides by 100 and the 30-bit integer comes from an arithmetic shift of an i32 (R-RK); DIMENSIONS only sizes a reserve (R-DIM); bounding-box min/max are independent (R-MINMAX); per-sheet accumulators are appended to, never reassigned (R-ACCUM); shared strings that continue into CONTINUE records re-read the compression flag, skip rich/extended data in order and dequeue fragments first-in first-out (R-CONT); the text of a string-valued formula is stored at the position of the last FORMULA record, state that only the FORMULA and STRING arms touch (R-FMLAPOS); the FormulaValue kinds 0..3 are told apart under the 0xFFFF marker and their payload is byte 2 (R-TAB-FMLAVAL); compressed and 16-bit characters go through the one workbook decoder (R-DBCS-ENC); FormulaValue kinds 1 / 3 build Bool / String (R-TAB-FMLAVAL ctor); date values are stored unchanged (R-DTNEW).",
        "IEEE bit arithmetic, MULRK column arithmetic, string decoding inside encoding_rs",
        [T.r_tab_rec, T.r_tab_err, W.r_dim, W.r_minmax, M.r_rk, M.r_accum, W.r_cont, U.r_lenguard, U3.r_fmlapos, U3.r_tab_fmlaval, U.r_dbcs_enc, U3.r_dbcs_out, U3.r_fmlaval_ctor, U3.r_dtnew])
    R["C03"] = _p(
        "Decides structural clauses of C03 on src/xlsb: sibling agreement of next_cell / next_formula on record framing, row state, record ids and position computation (R-SIB-XLSB); error-code table (R-TAB-ERR); BrtWsDim only sizes capacity hints (R-DIM); Empty filter and header-row filter of the lazy range builder (R-TIGHT); the record-header decoders read at most 2 (type) / 4 (size) bytes of 7 bits each with shifts 7, 14, 21 -- partial evaluation of their MIR with the input bytes unknown (R-VARINT); fill_buffer rejects no record size by itself (R-RECSIZE); date values are built and read back unchanged (R-DTNEW, R-DTVALUE).",
        "RK arithmetic beyond the flag handling, wide_str decoding",
        [S.r_sib_xlsb, T.r_tab_err, W.r_dim, S.r_tight, W.r_minmax, M.r_rk, U.r_varint, U.r_utf16, U3.r_dtnew, U3.r_dtvalue, U3.r_recsize])
    R["C04"] = _p(
        "Decides on src/ods.rs: the value-attribute -> variant table of the cell decoder (R-TAB-ODS); only the two *-repeated attributes feed repeat counts and the parsed count is not clamped (R-ODSREP); only the row arm of read_table consumes reader events (R-ODSFLAT); every grid row written by get_range is exactly col_max + 1 - col_min cells wide, by linear evaluation of the emitted slice lengths (R-ODSWIDTH); paragraphs are joined by a first-paragraph flag (R-ODSPARA); whitespace and comments between elements never abort a pull loop (R-BENIGN); reader configuration (R-XMLCFG); Empty means exactly the Empty variant for the row reader's empty-run test (R-EMPTYDEF); by-index access is not overridden over a map of sheets (R-AT override).  Amplification by repeat counts is decided under C06.",
        "the run-length arithmetic of get_range beyond the width clause (first_empty_rows_repeated, row_max bookkeeping), bounding-box positions",
        [T.r_tab_ods, X.r_xmlcfg, W.r_odspara, M.r_odsrep, M.r_odsflat, U.r_odswidth, U.r_benign, U3.r_at_override, U.r_emptydef])
    R["C06"] = _p(
        "Decides, over the HIR/MIR of the reader modules (cfb, vba, xls, xlsb, xlsx, ods, utils, auto, plus Dimensions::len and Range::from_sparse): XML pull loops leave on Eof (R-EOF); self-chasing loops have a bounding exit (R-CHASE); Range::range preconditions (R-RANGEPRE); and, by abstract interpretation of MIR (linear expressions over source atoms, intervals, symbolic and exact slice lengths, branch refinement; helper summaries: constant length needs moved to call sites, return intervals, facts a Result-returning guard helper ensures on Ok, argument intervals and argument relations of private functions): every slice/index/split/copy on file bytes or with a file-derived index is bounds-proved (R-INDEX), file-derived arithmetic cannot overflow (R-ARITH), file-derived allocation sizes are capped or input-bounded (R-ALLOC), file-derived trip counts consume input or do not grow memory, for counted `for` loops and for `while container.len() < n` loops (R-AMP), unwrap/expect/panic constructs are discharged by an enumerated idiom (R-PANIC); the byte count of Read::read is never discarded (R-IOAMT); the character loop of read_dbcs advances to the next CONTINUE fragment or fails whenever characters are owed (R-DBCS-PROGRESS); reserved compound-file sector numbers never reach Sectors::get (R-CFBRES: one known finding).  Sites the pinned tree leaves unchecked are listed in known_findings.json (each group demonstrated by a failing input) or audited_safe.json (one reason per site).",
        "dependencies (zip, quick-xml, encoding_rs, codepage); time / memory constants",
        [X.r_eof, W.r_rangepre, M.r_chase, Z.r_mir, U.r_ioamt, U.r_dbcs_progress, U.r_cfbres, U.r_ovbachunk])
    R["C07"] = _p(
        "Decides: the write footprint of every public read method of the four reader structs is limited to the archive cursor and designated setters/loaders, and no reader stores a cursor (R-FRAME); every Sheets method forwards to the same method of the wrapped reader (R-DELEG); worksheet_range_at & co use n itself (R-AT); worksheets() goes through worksheet_range or the very field it returns (R-WS); unknown names reach WorksheetNotFound (R-NOTFOUND); From<DataRef> for Data preserves variants (R-TAB-FROM); a zip lacking the format's mandatory part is rejected so that auto-detection cannot pick the wrong reader (R-AUTODETECT); a borrowed range / cell reader keeps the workbook exclusively borrowed (compile_fail witnesses with compiling twins, R-WITNESS); the xlsx table / merged-region caches are written only after the last fallible step of their loader (R-CACHEATOMIC); by-index access is not overridden over a map of sheets (R-AT override).",
        "equality of values across calls beyond the frame condition (zip / XML determinism is trusted)",
        [W.r_frame, S.r_deleg, S.r_at, S.r_ws, S.r_notfound, T.r_tab_from, W.r_autodetect, N.r_witness, U3.r_cacheatomic, U3.r_at_override])
    R["C08"] = _p(
        "Decides: options.header_row has one writer and is re-read on every call (R-FRAME); the lazy filter keeps rows >= n and pads at row n iff needed (R-TIGHT); the eager readers window the stored range as range((n, start.1), end) with n from HeaderRow::Row and start/end of the stored range (R-HDRWIN); Range::range is only reached with start <= end established (R-RANGEPRE); the declared dimension never decides what is returned (R-DIM); Sheets::with_header_row delegates (R-DELEG); the owned conversion keeps every DataRef variant (R-TAB-FROM); a blank-string formula result is a value (R-TAB-FMLAVAL ctor).",
        "value equality between the eager (xls, ods) and lazy (xlsx, xlsb) implementations",
        [W.r_frame, S.r_tight, W.r_rangepre, S.r_deleg, W.r_dim, U.r_hdrwin, T.r_tab_from, U3.r_fmlaval_ctor])
    R["C09"] = _p(
        "Decides: size_hint reads state that next advances (R-ITER); error positions depend on the column index and the row position advances (R-POS); every DataDeserializer method maps Data::Error to CellError{kind,pos} and Empty as documented (R-TAB-DE); header selection trims both sides, compares exactly and reports HeaderNotFound (R-HDR); map access skips exactly the empty cells (R-MAPKEY); integer cells reach integer fields by one `as` cast, never through a float (R-INTCAST); numeric strings are parsed as the field's own type (R-NUMPARSE); the row position advances once per row taken, before any fallible step (R-POS every-row); only explicitly requested headers are located by name, the default stays positional (R-HDR all-positional); the serde visitor of Data maps each callback to its own variant (R-TAB-VISIT); a date cell's numeric value is the stored serial (R-DTVALUE).",
        "values of the casts themselves, serde's own behaviour",
        [W.r_iter, W.r_pos, T.r_tab_de, W.r_hdr, W.r_mapkey, U.r_intcast, U.r_numparse, U.r_intarm, U.r_emptydef, U3.r_pos_everyrow, U3.r_hdr_all, U3.r_tab_visit, U3.r_dtvalue])
    R["C10"] = _p(
        "Decides: numeric Data/DataRef variants are built in the three readers only through formats::format_excel_* whose format operand comes from the cell's style lookup and whose date-system operand from the reader flag (R-NUMCTOR); the xlsb style index is the 24-bit iStyleRef only (R-XLSBCELL), xlsx style indices are parsed as usize (R-IDXWIDTH); the two built-in id tables agree with each other and with ECMA-376 18.8.30 (R-TAB-FMT); declared formats win over built-in ids (R-FMTPREC); format kind -> DateTime/TimeDelta flavour (R-TAB-FMTKIND); format codes are unescaped (R-UNESC); style tables get one entry per xf (R-SST); the scanner's decision table is evaluated over a finite abstract input space against 13 clauses (R-FMT-SCAN); the constructor every date value goes through stores value, flavour and date system unchanged (R-DTNEW); cell attributes (s, t, r) are looked up by their full name (R-ATTRKEY).",
        "the full number-format grammar (R-FMT-SCAN decides the per-character decision table of the scanner against the clauses the property states, not the language as a whole)",
        [W.r_numctor, T.r_tab_fmt, T.r_tab_fmtkind, part(W.r_sst, only=["cellXfs", "XF table"]), W.r_fmtprec, M.r_unesc, Q.r_fmt_scan, U.r_xlsbcell, U.r_idxwidth, U3.r_dtnew, U3.r_attrkey])
    R["C11"] = _p(
        "Decides, for feature `dates`: totality -- every chrono call reachable in the date conversions is a fallible/checked API or has constant operands, so a serial beyond the representable calendar yields None rather than a panic (R-PANIC-DATES); the constants of the conversion follow the date-system table: epoch 1899-12-30, 1462 days between the systems, 86 400 000 ms per day, both conversions scaled by it (R-DATE-TABLE); the 1900 leap-day shim (+1 day below serial 60) is decided on the value after the 1904 offset and on the right branch (R-DATE-ORDER); the millisecond count is never cast to an unsigned type (R-DATE-SIGN); as_date / as_time are components of as_datetime or parsed ISO text, never built from numbers of their own (R-DATE-COMP); a whole/remainder split never pairs floor with `%` (R-DATE-SPLIT); the trait's default conversions select by cell variant, never by the payload's format flavour (R-DATE-VARIANT); the constructor stores its arguments unchanged (R-DTNEW).",
        "the floating-point rounding to the millisecond, monotonicity as a numeric fact, Int/Float cells converting like 1900-system date-times beyond their routing through ExcelDateTime",
        [D.r_c11, D.r_c11_conv, U3.r_date_split, U3.r_date_variant, U3.r_dtnew])
    R["C12"] = _p(
        "Decides: after a fragment switch inside a character run the compression flag is re-read and its byte consumed; rich-text runs then extended data are skipped unconditionally in order; Record::skip consumes no flag byte (R-CONT); the SST gets one entry per item (R-SST); the character loop always advances or fails (R-DBCS-PROGRESS); all three storage forms are decoded by the one workbook decoder after widening (R-DBCS-ENC), and nothing reaches the output string except through it (R-DBCS-ENC out); the storage form is decided by the flag, never by the bytes left in the record (R-DBCS-FLAG); the SST count is used unclamped (R-SSTCOUNT).",
        "8/16-bit decoding arithmetic inside encoding_rs",
        [W.r_cont, part(W.r_sst, only=["xls SST"]), U.r_dbcs_progress, U.r_dbcs_enc, U3.r_dbcs_out, U3.r_dbcs_flag, U3.r_sstcount])
    R["C13"] = _p(
        "Decides: header and directory-entry field offsets follow MS-CFB (R-TAB-CFB); mini-stream cutoff `len < 4096` selecting mini FAT vs FAT and truncation of the chain to the stream length (R-CFBFLOW); every directory entry is decoded (R-CFBDIR); FAT / DIFAT walks are bounded (R-CHASE: two known findings); the FAT tables are built append-only (R-CFBTAB); a Cfb is not cloned and then used alongside its clone, which would share the reader but not the sector cache (R-CFBCLONE); the directory and mini-FAT chains are truncated to sector count x sector size of the file (R-CFBLEN); table sectors decode to one entry per 4 bytes, all of them (R-TOU32); a short last sector is tolerated (R-CFBTAIL).",
        "sector offset arithmetic, chain order",
        [T.r_tab_cfb, W.r_cfbflow, M.r_cfbdir, M.r_chase, U.r_cfbclone, U.r_cfbtab, U.r_cfbver, U.r_bookorder, U3.r_cfblen, U3.r_tou32, U3.r_cfbtail])
    R["C14"] = _p(
        "Decides: operator tokens (R-TAB-OP) and error literals (R-TAB-ERR) of both token decoders follow MS-XLS/MS-XLSB; operand tokens push one entry and consume the payload width of the spec, reference tokens render the column masked to 14 bits with `$` exactly on the absolute components from the right payload bytes (R-TAB-PTG); formula cell positions through the sibling rules (R-SIB-XLSX, R-SIB-XLSB); defined-name tables get one entry per record so name tokens resolve (R-SST); both decoders keep the same operand-stack / output-buffer discipline per token class (R-SIB-PTG); PtgAttr sub-token widths follow the spec incl. the variable PtgAttrChoose table (R-TAB-ATTR); 3-D references and defined names reach their sheet through ExternSheet (R-XTI); every digit of a column index reaches the rendered letters (R-DIGITS, must-use on MIR); explicit cell references decide formula positions (R-CELLPOS); the token stream of a defined name is located from the record end or by the byte count of the name, never by its character count (R-LBLRGCE); the string helper reports the byte count, not the character count (R-STRBYTES returns-bytes).",
        "the digit arithmetic of push_column beyond the must-use clause, function-name table contents",
        [T.r_tab_op, T.r_tab_err, G.r_tab_ptg, S.r_sib_xlsx, S.r_sib_xlsb, part(W.r_sst, only=["Lbl", "BrtName"]), U.r_xti, U.r_digits, U.r_sib_ptg, U.r_cellpos, U.r_tab_attr, U.r_strbytes, U.r_trunc, U.r_names1to1, U.r_charcast, M.r_unesc, U3.r_lblrgce, U3.r_strret])
    R["C16"] = _p(
        "Decides: metadata vectors are filled by order-preserving operations only (R-ORDER); visibility and sheet-kind tables follow the specs (R-TAB-VIS, R-TAB-TYP); the date-system element is matched prefix-insensitively (R-NS) and the flag reaches every number conversion (R-NUMCTOR) and accepts both boolean spellings without being reset by attribute-less extension elements (R-TAB-1904); xls defined names resolve their sheet through ExternSheet (R-XTI) and their reference is located by bytes, not characters (R-LBLRGCE); references in defined names render their column with the 14-bit mask and `$` flags of the spec (R-TAB-PTG); the workbook part is found case-insensitively (R-PART); date values keep the workbook's date system (R-DTNEW).",
        "exact name decoding",
        [W.r_order, T.r_tab_vis, T.r_tab_typ, X.r_ns, W.r_numctor, M.r_tab_1904, M.r_unesc, U.r_xti, U.r_benign, U.r_strbytes, part(W.r_sst, only=["Lbl", "BrtName"]), U.r_names1to1, U3.r_lblrgce, U3.r_dtnew, G.r_tab_ptg, X.r_part])
    R["C17"] = _p(
        "Decides: guarded header/totals adjustments use their own field and regions/tables are attributed to the scanned sheet (R-TBL); per-table defaults are re-initialised per table (R-TBLFRESH); element loops end only at the closing tag, end of input or error (R-COUNTHINT); merge regions accumulate (R-ACCUM); worksheet_merge_cells_at(n) uses the n-th sheet name (R-AT); mergeCell / table elements are matched prefix-insensitively (R-NS); column names are unescaped (R-UNESC); cache fields are written only by their loaders (R-FRAME); Range::range precondition before table windowing (R-RANGEPRE).",
        "coordinate arithmetic",
        [W.r_tbl, W.r_frame, W.r_rangepre, M.r_accum, M.r_tblfresh, M.r_counthint, M.r_unesc, S.r_at, X.r_ns])
    R["C18"] = _p(
        "Decides structural clauses of C18 (narrow): the MODULE record walk of the dir stream checks the record ids of [MS-OVBA] 2.3.4.2.3.2 in order, each as a fixed or variable-length record (R-TAB-VBADIR); a module's name, stream name and offset come from the MODULENAME, MODULESTREAMNAME and MODULEOFFSET records, its content is decompress_stream(stream[offset..]) of the stream of that name stored under the module's name, and its text is decoded with the code page read from the project (R-VBAMOD); the framing constants of the decompressor -- container and chunk signatures, header masks, raw-chunk size, BitCount range 4..16, length + 3, offset + 1, LengthMask / OffsetMask -- follow [MS-OVBA] 2.4.1 (R-TAB-OVBA); a flag byte is read only after the chunk-exhaustion test (R-OVBACHUNK) and the chunk start is taken per chunk (R-OVBASTART); both branches of the control-reference record end after its reserved id (R-VBAREF); the fixed-width fields of the reference records are skipped by the widths of [MS-OVBA] 2.3.4.2.2 (R-TAB-VBAREF).  Robustness of the decompressor on hostile input is decided under C06.",
        "that decompression inverts compression (the copy loop, token arithmetic on concrete values), the reference records, project information records other than the code page",
        [V.r_tab_vbadir, V.r_vbamod, V.r_tab_ovba, U.r_ovbachunk, V.r_vbaref, V.r_ovbastart, U3.r_tab_vbaref])
    R["C19"] = _p(
        "Decides: shared-string tables get one entry per item (R-SST); every text-accumulating event match handles Text and CData, unescapes and appends (R-CDATA); readers never trim and always expand empty elements (R-XMLCFG); phonetic flag set/cleared in pairs and guarding <t> (R-RPH); prefix-insensitive element matching incl. rich-text closing tags (R-NS); text attributes are unescaped (R-UNESC); CONTINUE handling of xls strings (R-CONT) and the single-decoder rule for their storage forms (R-DBCS-ENC); xlsb strings go through a UTF-16 decoder (R-UTF16); ods paragraphs (R-ODSPARA); item loops are not cut at declared counts (R-COUNTHINT); xlsb record sizes keep all 28 bits (R-VARINT) and are not rejected (R-RECSIZE); xls storage-form decision and SST count (R-DBCS-FLAG, R-SSTCOUNT); blank strings are values (R-EMPTYDEF).",
        "per-character decoding in dependencies (encoding_rs, quick-xml entity expansion)",
        [part(W.r_sst, only=["shared strings", "xls SST"]), X.r_cdata, X.r_xmlcfg, X.r_rph, X.r_ns, W.r_cont, W.r_odspara, M.r_unesc, M.r_counthint, U.r_dbcs_enc, U.r_utf16, U.r_varint, U3.r_dbcs_out, U3.r_recsize, U3.r_sstcount, U.r_emptydef, U3.r_dbcs_flag])
    R["C20"] = _p(
        "Decides: the password sniff dominates archive opening and its error is propagated; it rewinds the reader to offset 0 right before parsing the compound file; Password depends exactly on the EncryptedPackage entry; the FILEPASS arm is unconditional and the only place where xls builds Password; any manifest:encryption-data start returns Password and the scan is always reached; Password variants are built nowhere else (R-PWD); the directory the sniff searches is read in full whatever the sector size (R-CFBLEN) and its entries (name cut at the first NUL, type, start, size) are decoded at the offsets of MS-CFB (R-TAB-CFB); a container whose last sector is short still opens (R-CFBTAIL).",
        "container-layout independence of the sniff (delegated to C13)",
        [W.r_pwd, U3.r_cfblen, T.r_tab_cfb, U3.r_cfbtail])
    return R


NOT_APPLICABLE = {
    "C05": "Range rectangle consistency is index arithmetic over run-time coordinates (inner.len() == width*height, placement, growth, windowing); no structural clause is a necessary condition, and a symbolic length algebra would be a solver, i.e. a different technique family",
    "C15": "shared-formula translation is a text rewrite over an open formula language; which substrings are references and the offset arithmetic are value-level (amplification through the ref attribute is covered under C06)",
}


def run_property(prop, tier, repo):
    R = registry()
    if prop == "ALL":
        rc = 0
        for p in sorted(R):
            rc |= runner.run(p, tier, R[p]["rules"], R[p], repo)
        return rc
    if prop not in R:
        print("unknown or not-applicable property %s" % prop)
        return 2
    meta = R[prop]
    return runner.run(prop, tier, meta["rules"], meta, repo)
