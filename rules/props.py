"""Property -> rules registry (DESIGN.md section 4)."""
import functools

from . import runner
from . import r_xml as X
from . import r_tables as T
from . import r_sib as S
from . import r_flow as W
from . import r_more as M
from . import r_c06 as Z
from . import r_ptg as G
from . import r_fmt as Q
from . import r_c11 as D
from . import r_witness as N
from . import r_seed2 as U


def part(fn, **kw):
    p = functools.partial(fn, **kw)
    p.__name__ = fn.__name__
    return p


def _p(explanation, not_decided, rules, assumptions=None):
    return {"explanation": explanation, "not_decided": not_decided, "rules": rules,
            "assumptions": (assumptions or []) + ["64-bit usize", "the audited_safe.json reasons still hold for keys that did not change"]}


def registry():
    R = {}
    R["C01"] = _p(
        "Decides structural clauses of C01 on the typed HIR of src/xlsx: the two cell walkers move the row/column cursor identically (R-SIB-XLSX); the declared <dimension> only sizes capacity hints (R-DIM); element names are matched prefix-insensitively and like with like (R-NS); parts are opened only through the case-insensitive resolver (R-PART); the `t` attribute maps to the documented variants (R-TAB-T) and error literals to error kinds (R-TAB-ERR); Empty cells are filtered before every push (R-TIGHT); readers expand empty elements and never trim (R-XMLCFG); the shared-string table gets one entry per <si> (R-SST); a <c> with an `r` attribute is reported at the (row, col) that attribute decodes to, in that order, and otherwise at the running cursor (R-CELLPOS); every Text/CData piece of an element is appended, never assigned (R-CDATA).",
        "A1 -> (row, col) arithmetic, number parsing, relationship-target normalisation, the zip layer; an identical edit applied to both walkers",
        [S.r_sib_xlsx, W.r_dim, X.r_ns, X.r_part, T.r_tab_t, T.r_tab_err, S.r_tight, X.r_xmlcfg, part(W.r_sst, only=["xlsx shared"]), W.r_minmax, X.r_cdata, U.r_cellpos, U.r_idxwidth, U.r_emptydef])
    R["C02"] = _p(
        "Decides structural clauses of C02 on src/xls.rs: the sheet-substream dispatch has an arm feeding the cell vector for each record kind the property names (R-TAB-REC); BoolErr / FormulaValue error codes follow MS-XLS BErr (R-TAB-ERR); DIMENSIONS only sizes a reserve (R-DIM).",
        "RK / IEEE bit arithmetic, sign extension, MULRK column arithmetic",
        [T.r_tab_rec, T.r_tab_err, W.r_dim, W.r_minmax, M.r_rk, M.r_accum, W.r_cont, U.r_lenguard])
    R["C03"] = _p(
        "Decides structural clauses of C03 on src/xlsb: sibling agreement of next_cell / next_formula on record framing, row state, record ids and position computation (R-SIB-XLSB); error-code table (R-TAB-ERR); BrtWsDim only sizes capacity hints (R-DIM); Empty filter and header-row filter of the lazy range builder (R-TIGHT); the record-header decoders read at most 2 (type) / 4 (size) bytes of 7 bits each with shifts 7, 14, 21 -- partial evaluation of their MIR with the input bytes unknown (R-VARINT).",
        "RK arithmetic beyond the flag handling, wide_str decoding",
        [S.r_sib_xlsb, T.r_tab_err, W.r_dim, S.r_tight, W.r_minmax, M.r_rk, U.r_varint, U.r_utf16])
    R["C04"] = _p(
        "Decides the value-attribute -> variant table of the ods cell decoder (R-TAB-ODS) and the reader configuration (R-XMLCFG). Amplification by repeat counts is decided under C06.",
        "everything in get_range: bounding box, re-expansion of repeated rows/columns, interior empty runs (run-length arithmetic)",
        [T.r_tab_ods, X.r_xmlcfg, W.r_odspara, M.r_odsrep, M.r_odsflat, U.r_odswidth, U.r_benign])
    R["C06"] = _p(
        "Decides, over the HIR/MIR of the reader modules (cfb, vba, xls, xlsb, xlsx, ods, utils, auto, plus Dimensions::len and Range::from_sparse): XML pull loops leave on Eof (R-EOF); self-chasing loops have a bounding exit (R-CHASE); Range::range preconditions (R-RANGEPRE); and, by abstract interpretation of MIR (linear expressions over source atoms, intervals, symbolic and exact slice lengths, branch refinement, helper summaries): every slice/index/split/copy on file bytes or with a file-derived index is bounds-proved (R-INDEX), file-derived arithmetic cannot overflow (R-ARITH), file-derived allocation sizes are capped or input-bounded (R-ALLOC), file-derived trip counts consume input or do not grow memory (R-AMP), unwrap/expect/panic constructs are discharged by an enumerated idiom (R-PANIC); the byte count of Read::read is never discarded (R-IOAMT); the character loop of read_dbcs advances to the next CONTINUE fragment or fails whenever characters are owed (R-DBCS-PROGRESS); reserved compound-file sector numbers never reach Sectors::get (R-CFBRES: one known finding).  Sites the pinned tree leaves unchecked are listed in known_findings.json (each group demonstrated by a failing input) or audited_safe.json (one reason per site).",
        "dependencies (zip, quick-xml, encoding_rs, codepage); time / memory constants",
        [X.r_eof, W.r_rangepre, M.r_chase, Z.r_mir, U.r_ioamt, U.r_dbcs_progress, U.r_cfbres])
    R["C07"] = _p(
        "Decides: the write footprint of every public read method of the four reader structs is limited to the archive cursor and designated setters/loaders, and no reader stores a cursor (R-FRAME); every Sheets method forwards to the same method of the wrapped reader (R-DELEG); worksheet_range_at & co use n itself (R-AT); worksheets() goes through worksheet_range or the very field it returns (R-WS); unknown names reach WorksheetNotFound (R-NOTFOUND); From<DataRef> for Data preserves variants (R-TAB-FROM); a zip lacking the format's mandatory part is rejected so that auto-detection cannot pick the wrong reader (R-AUTODETECT); a borrowed range / cell reader keeps the workbook exclusively borrowed (compile_fail witnesses with compiling twins, R-WITNESS).",
        "equality of values across calls beyond the frame condition (zip / XML determinism is trusted)",
        [W.r_frame, S.r_deleg, S.r_at, S.r_ws, S.r_notfound, T.r_tab_from, W.r_autodetect, N.r_witness])
    R["C08"] = _p(
        "Decides: options.header_row has one writer and is re-read on every call (R-FRAME); the lazy filter keeps rows >= n and pads at row n iff needed (R-TIGHT); Range::range is only reached with start <= end established (R-RANGEPRE); Sheets::with_header_row delegates (R-DELEG).",
        "value equality between the eager (xls, ods) and lazy (xlsx, xlsb) implementations",
        [W.r_frame, S.r_tight, W.r_rangepre, S.r_deleg, W.r_dim, U.r_hdrwin])
    R["C09"] = _p(
        "Decides: size_hint reads state that next advances (R-ITER); error positions depend on the column index and the row position advances (R-POS); every DataDeserializer method maps Data::Error to CellError{kind,pos} and Empty as documented (R-TAB-DE); header selection trims both sides, compares exactly and reports HeaderNotFound (R-HDR); map access skips exactly the empty cells (R-MAPKEY); integer cells reach integer fields by one `as` cast, never through a float (R-INTCAST); numeric strings are parsed as the field's own type (R-NUMPARSE).",
        "values of the casts themselves, serde's own behaviour",
        [W.r_iter, W.r_pos, T.r_tab_de, W.r_hdr, W.r_mapkey, U.r_intcast, U.r_numparse, U.r_intarm, U.r_emptydef])
    R["C10"] = _p(
        "Decides: numeric Data/DataRef variants are built in the three readers only through formats::format_excel_* whose format operand comes from the cell's style lookup and whose date-system operand from the reader flag (R-NUMCTOR); the two built-in id tables agree with each other and with ECMA-376 18.8.30 (R-TAB-FMT); format kind -> DateTime/TimeDelta flavour (R-TAB-FMTKIND); style tables get one entry per xf (R-SST).",
        "the full number-format grammar (R-FMT-SCAN decides the per-character decision table of the scanner against the clauses the property states, not the language as a whole)",
        [W.r_numctor, T.r_tab_fmt, T.r_tab_fmtkind, part(W.r_sst, only=["cellXfs", "XF table"]), W.r_fmtprec, M.r_unesc, Q.r_fmt_scan, U.r_xlsbcell, U.r_idxwidth])
    R["C11"] = _p(
        "Decides, for feature `dates`: totality -- every chrono call reachable in the date conversions is a fallible/checked API or has constant operands, so a serial beyond the representable calendar yields None rather than a panic (R-PANIC-DATES); the constants of the conversion follow the date-system table: epoch 1899-12-30, 1462 days between the systems, 86 400 000 ms per day, both conversions scaled by it (R-DATE-TABLE); the 1900 leap-day shim (+1 day below serial 60) is decided on the value after the 1904 offset and on the right branch (R-DATE-ORDER); the millisecond count is never cast to an unsigned type (R-DATE-SIGN); as_date / as_time are components of as_datetime or parsed ISO text, never built from numbers of their own (R-DATE-COMP).",
        "the floating-point rounding to the millisecond, monotonicity as a numeric fact, Int/Float cells converting like 1900-system date-times beyond their routing through ExcelDateTime",
        [D.r_c11, D.r_c11_conv])
    R["C12"] = _p(
        "Decides: after a fragment switch inside a character run the compression flag is re-read and its byte consumed; rich-text runs then extended data are skipped unconditionally in order; Record::skip consumes no flag byte (R-CONT); the SST gets one entry per item (R-SST); the character loop always advances or fails (R-DBCS-PROGRESS); all three storage forms are decoded by the one workbook decoder after widening (R-DBCS-ENC).",
        "8/16-bit decoding arithmetic inside encoding_rs",
        [W.r_cont, part(W.r_sst, only=["xls SST"]), U.r_dbcs_progress, U.r_dbcs_enc])
    R["C13"] = _p(
        "Decides: header and directory-entry field offsets follow MS-CFB (R-TAB-CFB); mini-stream cutoff `len < 4096` selecting mini FAT vs FAT and truncation of the chain to the stream length (R-CFBFLOW); every directory entry is decoded (R-CFBDIR); FAT / DIFAT walks are bounded (R-CHASE: two known findings); the FAT tables are built append-only (R-CFBTAB); a Cfb is not cloned and then used alongside its clone, which would share the reader but not the sector cache (R-CFBCLONE).",
        "sector offset arithmetic, chain order",
        [T.r_tab_cfb, W.r_cfbflow, M.r_cfbdir, M.r_chase, U.r_cfbclone, U.r_cfbtab, U.r_cfbver, U.r_bookorder])
    R["C14"] = _p(
        "Decides: operator tokens (R-TAB-OP) and error literals (R-TAB-ERR) of both token decoders follow MS-XLS/MS-XLSB; operand tokens push one entry and consume the payload width of the spec, reference tokens render the column masked to 14 bits with `$` exactly on the absolute components from the right payload bytes (R-TAB-PTG); formula cell positions through the sibling rules (R-SIB-XLSX, R-SIB-XLSB); defined-name tables get one entry per record so name tokens resolve (R-SST); both decoders keep the same operand-stack / output-buffer discipline per token class (R-SIB-PTG); PtgAttr sub-token widths follow the spec incl. the variable PtgAttrChoose table (R-TAB-ATTR); 3-D references and defined names reach their sheet through ExternSheet (R-XTI); every digit of a column index reaches the rendered letters (R-DIGITS, must-use on MIR); explicit cell references decide formula positions (R-CELLPOS).",
        "the digit arithmetic of push_column beyond the must-use clause, function-name table contents",
        [T.r_tab_op, T.r_tab_err, G.r_tab_ptg, S.r_sib_xlsx, S.r_sib_xlsb, part(W.r_sst, only=["Lbl", "BrtName"]), U.r_xti, U.r_digits, U.r_sib_ptg, U.r_cellpos, U.r_tab_attr, U.r_strbytes, U.r_trunc, U.r_names1to1])
    R["C16"] = _p(
        "Decides: metadata vectors are filled by order-preserving operations only (R-ORDER); visibility and sheet-kind tables follow the specs (R-TAB-VIS, R-TAB-TYP); the date-system element is matched prefix-insensitively (R-NS) and the flag reaches every number conversion (R-NUMCTOR) and accepts both boolean spellings without being reset by attribute-less extension elements (R-TAB-1904); xls defined names resolve their sheet through ExternSheet (R-XTI).",
        "exact name decoding",
        [W.r_order, T.r_tab_vis, T.r_tab_typ, X.r_ns, W.r_numctor, M.r_tab_1904, M.r_unesc, U.r_xti, U.r_benign, U.r_strbytes, part(W.r_sst, only=["Lbl", "BrtName"]), U.r_names1to1])
    R["C17"] = _p(
        "Decides: guarded header/totals adjustments use their own field and regions/tables are attributed to the scanned sheet (R-TBL); cache fields are written only by their loaders (R-FRAME); Range::range precondition before table windowing (R-RANGEPRE).",
        "coordinate arithmetic",
        [W.r_tbl, W.r_frame, W.r_rangepre, M.r_accum, M.r_tblfresh, M.r_counthint, M.r_unesc, S.r_at, X.r_ns])
    R["C19"] = _p(
        "Decides: shared-string tables get one entry per item (R-SST); every text-accumulating event match handles Text and CData and unescapes (R-CDATA); readers never trim and always expand empty elements (R-XMLCFG); phonetic flag set/cleared in pairs and guarding <t> (R-RPH); prefix-insensitive element matching incl. rich-text closing tags (R-NS); CONTINUE handling of xls strings (R-CONT) and the single-decoder rule for their storage forms (R-DBCS-ENC).",
        "per-character decoding in dependencies (encoding_rs, quick-xml entity expansion)",
        [part(W.r_sst, only=["shared strings", "xls SST"]), X.r_cdata, X.r_xmlcfg, X.r_rph, X.r_ns, W.r_cont, W.r_odspara, M.r_unesc, M.r_counthint, U.r_dbcs_enc, U.r_utf16])
    R["C20"] = _p(
        "Decides: the password sniff dominates archive opening and its error is propagated; Password depends exactly on the EncryptedPackage entry; the FILEPASS arm is unconditional; any manifest:encryption-data start returns Password and the scan is always reached; Password variants are built nowhere else (R-PWD).",
        "container-layout independence of the sniff (delegated to C13)",
        [W.r_pwd])
    return R


NOT_APPLICABLE = {
    "C05": "Range rectangle consistency is index arithmetic over run-time coordinates (inner.len() == width*height, placement, growth, windowing); no structural clause is a necessary condition, and a symbolic length algebra would be a solver, i.e. a different technique family",
    "C15": "shared-formula translation is a text rewrite over an open formula language; which substrings are references and the offset arithmetic are value-level (amplification through the ref attribute is covered under C06)",
    "C18": "VBA decompression correctness is bit-level arithmetic over token streams; module naming and offsets are run-time values (robustness of decompress_stream is covered under C06)",
}


def run_property(prop, tier, repo):
    R = registry()
    if prop == "ALL":
        rc = 0
        for p in sorted(R):
            rc |= runner.run(p, tier, R[p]["rules"], R[p], repo)
        return rc
    if prop not in R:
        print("unknown or not-applicable property %s" % prop)
        return 2
    meta = R[prop]
    return runner.run(prop, tier, meta["rules"], meta, repo)
