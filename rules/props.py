"""Property -> rules registry."""
from . import runner
from . import r_xml
from . import r_tables as T


def _p(explanation, not_decided, rules, assumptions=None):
    return {"explanation": explanation, "not_decided": not_decided, "rules": rules, "assumptions": assumptions or []}


def registry():
    R = {}
    R["DEV"] = _p("dev", "", [T.r_tab_err, T.r_tab_t, T.r_tab_vis, T.r_tab_typ, T.r_tab_ods, T.r_tab_op, T.r_tab_fmt, T.r_tab_fmtkind, T.r_tab_rec, T.r_tab_from, T.r_tab_de, T.r_tab_cfb])
    return R


def run_property(prop, tier, repo):
    R = registry()
    if prop not in R:
        print("unknown or not-applicable property %s" % prop)
        return 2
    meta = R[prop]
    return runner.run(prop, tier, meta["rules"], meta, repo)
