"""Property -> rules registry."""
from . import runner
from . import r_xml
from . import r_tables as T
from . import r_sib as S


def _p(explanation, not_decided, rules, assumptions=None):
    return {"explanation": explanation, "not_decided": not_decided, "rules": rules, "assumptions": assumptions or []}


def registry():
    R = {}
    R["DEV"] = _p("dev", "", [S.r_sib_xlsx, S.r_sib_xlsb, S.r_deleg, S.r_tight, S.r_at, S.r_ws, S.r_notfound])
    return R


def run_property(prop, tier, repo):
    R = registry()
    if prop not in R:
        print("unknown or not-applicable property %s" % prop)
        return 2
    meta = R[prop]
    return runner.run(prop, tier, meta["rules"], meta, repo)
