"""Check runner: runs the rules registered for a property, applies the known-findings and
audited-safe tables, prints VIOLATION / KNOWN-FINDING lines and writes the evidence file."""
import json
import re
import os
import sys
import time
import traceback

from . import extract
from .kit import Facts

VERIF = extract.VERIF


class Report:
    def __init__(self, prop, tier):
        self.prop = prop
        self.tier = tier
        self.instances = []   # every decided obligation
        self.rule_counts = {}
        self.notes = []

    def _add(self, verdict, rule, key, where, detail, nontrivial=True, facts=None):
        inst = {"rule": rule, "key": key, "where": where, "verdict": verdict, "detail": detail, "nontrivial": bool(nontrivial)}
        if facts:
            inst["facts"] = facts
        self.instances.append(inst)
        c = self.rule_counts.setdefault(rule, {"instances": 0, "holds": 0, "violations": 0})
        c["instances"] += 1
        if verdict == "holds":
            c["holds"] += 1
        else:
            c["violations"] += 1

    def holds(self, rule, key, where, detail, nontrivial=True, facts=None):
        self._add("holds", rule, key, where, detail, nontrivial, facts)

    def violation(self, rule, key, where, detail, facts=None):
        self._add("violation", rule, key, where, detail, True, facts)

    def floor(self, rule, n_expected, what):
        """Fail closed when a rule matched fewer subjects than were confirmed by hand."""
        n = self.rule_counts.get(rule, {"instances": 0})["instances"]
        if n < n_expected:
            self.violation(rule, "%s|floor" % rule, "-",
                           "rule matched %d subject(s), fewer than the floor %d (%s): anchor missing or renamed; the rule would pass vacuously" % (n, n_expected, what))

    def anchor_missing(self, rule, what):
        self.violation(rule, "%s|anchor|%s" % (rule, what), "-", "anchor missing: %s (rule cannot locate its subject; update the anchor if this was a rename)" % what)


class Ctx:
    """Lazily extracted facts per feature configuration.

    In the thorough tier the whole rule list is run once per feature configuration: `current` is the
    configuration of the pass, `facts("default")` then means "the configuration of this pass"."""

    def __init__(self, repo, tier):
        self.repo = repo
        self.tier = tier
        self._facts = {}
        self.extract_s = 0.0
        self.src_hash = None
        self.current = "default"

    def facts(self, config="default"):
        if config == "default":
            config = self.current
        if config not in self._facts:
            path, h, s = extract.ensure_facts(self.repo, config)
            self.extract_s += s
            self.src_hash = h
            self._facts[config] = Facts(path)
        return self._facts[config]

    def configs(self):
        return [self.current]

    def all_configs(self):
        return ["default"] if self.tier == "quick" else ["default", "dates", "picture", "dates_picture"]


def load_table(name):
    with open(os.path.join(VERIF, name)) as fh:
        return json.load(fh)


def evaluate(prop, tier, rules, repo, configs=None, ctx=None):
    """Run the rules of one property over one tree; returns (report, ctx, unlisted violations, kf_present, audited_used).
    `ctx` may be shared between properties evaluated on the same tree (the facts are loaded once)."""
    rep = Report(prop, tier)
    ctx = ctx or Ctx(repo, tier)
    for cfg in (configs or ctx.all_configs()):
        ctx.current = cfg
        before = len(rep.instances)
        for rule in rules:
            if cfg != "default" and getattr(rule, "__name__", "") in ("r_witness", "r_c11", "r_c11_conv", "r_date_split", "r_date_variant"):
                continue
            try:
                rule(ctx, rep)
            except SystemExit:
                raise
            except Exception as ex:  # a crashing rule must not pass silently
                tb = traceback.format_exc()
                rep.violation(getattr(rule, "__name__", "rule"), "%s|internal-error" % getattr(rule, "__name__", "rule"), "-",
                              "rule crashed: %s\n%s" % (ex, tb))
        if cfg != "default":
            # the same obligation in another feature configuration: keep violations whose key is new,
            # count the rest as configuration-specific evidence
            seen = {i["key"] for i in rep.instances[:before]}
            kept = []
            for inst in rep.instances[before:]:
                if inst["verdict"] == "violation" and inst["key"] in seen:
                    continue
                if inst["verdict"] == "holds":
                    inst["key"] = inst["key"] + "@" + cfg if inst["key"] in seen else inst["key"]
                kept.append(inst)
            rep.instances[before:] = kept
    ctx.current = "default"
    known = load_table("known_findings.json")
    audited = load_table("audited_safe.json")
    kf_by_key = {}
    for f in known.get("findings", []):
        if f.get("property") != prop and prop not in f.get("also_properties", []):
            continue
        for k in f.get("site_keys", []):
            kf_by_key[k] = f
    audited_by_key = {a["key"]: a for a in audited.get("sites", [])}
    violations = []
    kf_present = {}
    audited_used = []
    # A site key ends in an ordinal (`#3`) when a function has several sites with the same signature; the ordinal
    # follows source order, so reordering statements renumbers them.  Sites are therefore matched exactly first and
    # then per (function | rule | signature) *group*: a group is covered when it has no more members than the
    # tables list for it.  A new site with a listed signature in a listed function is still reported once the
    # group outgrows the tables.
    def base(k):
        # the group of a site: function (closures count with their parent: a loop body that becomes a `for_each`
        # closure keeps its sites), rule, signature without the ordinal and without the variant names of the
        # enum payloads it reads through (`local#Continue.0` after `?`, `local#Ok.0` after an explicit match)
        parts = k.split("|", 2)
        if len(parts) < 3:
            return re.sub(r"#\d+$", "", k)
        fn_, rule_, sig = parts
        fn_ = re.sub(r"::\{closure#\d+\}", "", fn_)
        sig = re.sub(r"#\d+$", "", sig)
        sig = re.sub(r"#[A-Za-z_]+\.", "#.", sig)
        if rule_ == "R-ALLOC":
            # the allocating operation, not the name of the abstract value that sizes it
            sig = sig.split(" ")[0]
        if rule_ == "R-INDEX":
            # what is accessed and how far, not the name the analysis gives to the buffer's provenance (`local`,
            # `local#Some.0`, `arg2`, `self.buf`: that changes when a loop is re-spelt or a value is passed along)
            sig = re.sub(r" of .*$", "", sig)
            # `call helper needs N`: N is the largest constant need inside the helper, it moves when the helper's body is re-arranged
            sig = re.sub(r"^(call \S+ needs) \d+$", r"\1", sig)
        return "%s|%s|%s" % (fn_, rule_, sig)
    listed = {}
    for k in list(kf_by_key) + list(audited_by_key):
        listed.setdefault(base(k), []).append(k)
    pending = {}
    used_exact = set()
    for inst in rep.instances:
        if inst["verdict"] != "violation":
            continue
        if inst["key"] in kf_by_key or inst["key"] in audited_by_key:
            used_exact.add(inst["key"])
    present = {i["key"] for i in rep.instances if i["verdict"] != "holds"}

    def vacated(inst):
        """listed sites of the same rule that have disappeared from the functions a new function is called from"""
        famset = set(inst["facts"]["family"])
        out = []
        for x in list(kf_by_key) + list(audited_by_key):
            if x in used_exact or x in present:
                continue
            ps = x.split("|", 2)
            if len(ps) == 3 and ps[1] == inst["rule"] and re.sub(r"::\{closure#\d+\}", "", ps[0]) in famset:
                out.append(x)
        return sorted(out)

    def settle(inst, k):
        if k in kf_by_key:
            inst["verdict"] = "known-finding"
            f = kf_by_key[k]
            kf_present.setdefault(f["id"], f)
        elif k in audited_by_key:
            inst["verdict"] = "audited-safe"
            inst["audit_reason"] = audited_by_key[k]["reason"]
            audited_used.append(k)
        else:
            violations.append(inst)

    moved = []
    for inst in rep.instances:
        if inst["verdict"] != "violation":
            continue
        k = inst["key"]
        if k not in kf_by_key and k not in audited_by_key:
            free = [x for x in listed.get(base(k), []) if x not in used_exact]
            if free:
                used_exact.add(free[0])
                inst["matched_as"] = free[0]
                k = free[0]
            else:
                # not a listed signature: wait for the sites that are (they have the first claim on a listed slot)
                if not (inst.get("facts") or {}).get("family"):
                    inst.setdefault("facts", {})
                    inst["facts"] = dict(inst["facts"] or {}, family=[re.sub(r"::\{closure#\d+\}", "", k.split("|", 1)[0])], same_fn=True)
                moved.append(inst)
                continue
        settle(inst, k)
    # A site whose signature is not listed, in a function that has listed sites of the same rule which have
    # *disappeared*: the abstract value classes in a signature (`src32`, `bounded16`, `param2`) follow the precision
    # of the analysis, which moves with the spelling of the code (a fold instead of a loop loses the relation
    # between two running values).  Such a site takes a vacated slot of its function and rule; the number of
    # unproved sites of a rule in a function can therefore never exceed the listed number without a report.
    # A site inside a function that did not exist when the findings were triaged (or the constant need of such a
    # function at its call site) is code that was moved there from one of its callers.  It takes the place of a
    # listed site of the same rule that has *disappeared* from a caller -- first one with the same signature, then
    # any; a site beyond the number of vacated ones is reported.
    rest = []
    for inst in moved:
        bk = base(inst["key"]).split("|", 2)[-1]
        same = [x for x in vacated(inst) if base(x).split("|", 2)[-1] == bk]
        if same:
            used_exact.add(same[0])
            inst["matched_as"], inst["moved"] = same[0], True
            settle(inst, same[0])
        else:
            rest.append(inst)
    for inst in rest:
        c = vacated(inst)
        if c:
            used_exact.add(c[0])
            inst["matched_as"], inst["moved"] = c[0], True
            settle(inst, c[0])
        else:
            settle(inst, inst["key"])
    return rep, ctx, violations, kf_present, audited_used


def run(prop, tier, rules, meta, repo="/repo"):
    """rules: list of callables rule(ctx, report). meta: dict with explanation etc."""
    t0 = time.time()
    seed = int(os.environ.get("VERIF_SEED", "0") or 0)
    rep, ctx, violations, kf_present, audited_used = evaluate(prop, tier, rules, repo)
    selftest = None
    if tier == "thorough" and not violations and not os.environ.get("VERIF_NO_SELFTEST"):
        from . import selftest as st

        def run_rules(d):
            # rule modules memoise per fact object, so a fresh evaluation on another tree is independent
            _, _, v, _, _ = evaluate(prop, "quick", rules, d, configs=["default"])
            return v
        selftest = st.run(prop, rules, repo, run_rules)
        print("self-validation on scratch copies: %d patch(es) applied, %d reported, %d skipped (do not apply to this tree), %d missed%s" % (
            selftest["applied"], selftest["detected"], len(selftest["skipped"]), len(selftest["missed"]),
            (": " + ", ".join(selftest["missed"])) if selftest["missed"] else ""))
        for m in selftest["missed"]:
            print("SELFTEST-MISS property=%s patch=%s (the check no longer reports a change it is recorded to report; this is about the checker, not the analysed tree)" % (prop, m))
        # engine regression guard: a site that is listed as a known finding (triaged as unchecked, its group demonstrated
        # by a failing input) and that now comes out as *proved* means either the tree repaired it (then the list
        # needs pruning) or a summary of the abstract interpreter became unsound.  Reported, never a VIOLATION.
        listed_keys = {k for f in load_table("known_findings.json").get("findings", []) if f.get("property") == prop for k in f.get("site_keys", [])}
        proved_listed = sorted(i["key"] for i in rep.instances if i["verdict"] == "holds" and i.get("nontrivial") and i["key"] in listed_keys)
        selftest["listed_sites_now_proved"] = proved_listed
        for k in proved_listed:
            print("SELFTEST-NOTE property=%s listed site now proved: %s (repaired in the tree, or an unsound summary in the engine: look before trusting)" % (prop, k))

    for fid, f in sorted(kf_present.items()):
        print("KNOWN-FINDING: property=%s %s [%s] %s" % (prop, fid, f.get("rule", ""), f["what_fails"]))

    vdir = os.path.join(VERIF, "evidence", "violations")
    if violations:
        os.makedirs(vdir, exist_ok=True)
    for i, v in enumerate(violations):
        p = os.path.join(vdir, "%s-%d.json" % (prop, i))
        with open(p, "w") as fh:
            json.dump({"property": prop, "tier": tier, "source_hash": ctx.src_hash, "instance": v}, fh, indent=1)
        print("VIOLATION property=%s replay=%s" % (prop, os.path.relpath(p, VERIF)))
        print("  rule=%s at %s" % (v["rule"], v["where"]))
        print("  key=%s" % v["key"])
        for line in str(v["detail"]).split("\n")[:12]:
            print("  " + line)

    n_obl = len(rep.instances)
    n_holds = sum(1 for i in rep.instances if i["verdict"] == "holds")
    distinct = len({i["key"] for i in rep.instances if i["nontrivial"]})
    samples = []
    seen_rules = set()
    for inst in rep.instances:
        if inst["rule"] not in seen_rules or len(samples) < 6:
            if sum(1 for s in samples if s["rule"] == inst["rule"]) < 2:
                samples.append({k: inst[k] for k in ("rule", "key", "where", "verdict", "detail") if k in inst})
                seen_rules.add(inst["rule"])
    wall = time.time() - t0
    ev = {
        "property_id": prop,
        "tier": tier,
        "seed": seed,
        "level": "other",
        "coverage": {
            "explanation": meta["explanation"],
            "obligations": n_obl,
            "discharged": n_holds,
            "evaluations": max(n_obl, 1),
            "distinct_nontrivial": distinct,
            "rule": meta.get("rule", "instances are enumerated from the type-checked HIR / MIR of the calamine lib crate by resolved type or callee; an instance is non-trivial when its verdict needed a fact beyond its mere presence (a table entry, a dominating guard, a sibling effect, a data-flow edge)"),
            "samples": samples[:24],
            "per_rule": rep.rule_counts,
            "not_decided": meta.get("not_decided", ""),
            "known_findings_present": sorted(kf_present.keys()),
            "audited_safe_used": sorted(set(audited_used)),
            "configs": sorted(ctx._facts.keys()),
            "source_hash": ctx.src_hash,
            "checker_cmd": "bin/check %s --tier %s" % (prop, tier),
            "trusted_base": ["rustc nightly HIR/MIR construction and trait resolution", "calamir serialisation of HIR/MIR", "dependencies of calamine are not analysed"],
            "exhaustive": True,
            "extract_s": round(ctx.extract_s, 2),
            "selftest": selftest,
            "notes": list(getattr(rep, "notes", []))[:40],
        },
        "assumptions": meta.get("assumptions", []),
        "wall_s": round(wall, 2),
        "violations": len(violations),
    }
    if not os.environ.get("VERIF_NO_EVIDENCE"):
        os.makedirs(os.path.join(VERIF, "evidence"), exist_ok=True)
        with open(os.path.join(VERIF, "evidence", prop + ".json"), "w") as fh:
            json.dump(ev, fh, indent=1)
            fh.write("\n")
    print("%s [%s]: %d obligations, %d hold, %d known finding site(s), %d audited, %d violation(s); %.1fs (extract %.1fs)" % (
        prop, tier, n_obl, n_holds, sum(1 for i in rep.instances if i["verdict"] == "known-finding"),
        len(audited_used), len(violations), wall, ctx.extract_s))
    return 1 if violations else 0
