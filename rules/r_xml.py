"""Rules over the XML pull loops (xlsx, xlsb relationship parts, ods).

R-EOF    every quick-xml pull loop leaves on end of input
R-CDATA  every text-accumulating event match handles Text and CData and unescapes Text
R-NS     xlsx: element names are matched prefix-insensitively, like compared with like
R-XMLCFG every constructed reader expands empty elements and never trims text
R-RPH    phonetic runs contribute nothing: flag set / cleared in pairs and guards the <t> arm
R-PART   xlsx: zip parts are opened only through the case-insensitive resolver
"""
from .kit import (walk, walk_anc, walk_k, unwrap, peel, loc, callee, callee_decl, path_local, path_def, lit_value,
                  pat_covers, pat_variant, pat_bindings, pat_is_catchall, always_leaves, leave_targets, norm, norm_ty)

READ_EVENT = "quick_xml::reader::buffered_reader::read_event_into"


def _contains_read_event(e):
    for n in walk_k(e, "MethodCall"):
        if n["name"] == "read_event_into" and (callee(n) or "").endswith("read_event_into"):
            return True
    return False


def event_matches(fn):
    """All `match <..read_event_into(..)..> { arms }` in fn: dicts with the match node, its
    enclosing loop, leave-target ids, and whether the scrutinee is Result-wrapped."""
    out = []
    for n, anc in walk_anc(fn.body):
        if n.get("k") != "Match" or n.get("src") not in ("Normal", None, "IfLet"):
            continue
        if not _contains_read_event(n["scrut"]):
            continue
        # the scrutinee must itself be the event (not a match nested in the scrutinee)
        sty = norm_ty(unwrap(n["scrut"]).get("ty") or "")
        wrapped = sty.startswith("core::result::Result<quick_xml::events::Event")
        if not wrapped and not sty.startswith("quick_xml::events::Event"):
            continue
        loop = None
        loop_anc = ()
        for i in range(len(anc) - 1, -1, -1):
            if anc[i].get("k") == "Loop":
                loop = anc[i]
                loop_anc = anc[:i]
                break
            if anc[i].get("k") == "Closure":
                break
        out.append({"match": n, "loop": loop, "targets": leave_targets(loop, loop_anc) if loop else set(), "wrapped": wrapped, "fn": fn})
    return out


def _chain(wrapped, variant):
    return (["Result::Ok"] if wrapped else []) + ["Event::" + variant]


def _arm_event_variant(arm, wrapped):
    """Event variant named by the arm pattern ('Start', 'Text', ...) or None."""
    p = arm["pat"]
    for n in walk(p):
        if n.get("k") in ("TupleStruct", "Struct", "PLit"):
            v = pat_variant(n)
            if v and v.startswith("quick_xml::events::Event::"):
                return v.rsplit("::", 1)[1]
    return None


def guard_literals(arm):
    """Byte-string / string literals compared in the arm guard."""
    g = arm.get("guard")
    out = []
    if g is None:
        return out
    for n in walk_k(g, "Lit"):
        v = n["v"]
        if isinstance(v, dict) and v.get("lit") in ("bstr", "str"):
            out.append(v["v"])
    return out


# ----------------------------------------------------------------------------------------------


def _guard_on_variant(g, variant):
    """three-valued value of an arm guard when the event is `variant` (e.g. 'Event::Eof'): decides guards built from
    `matches!(e, Event::A(_) | Event::B(_))`, `!`, `&&`, `||`; anything else is unknown (None)"""
    g = unwrap(g)
    if not isinstance(g, dict):
        return None
    k = g.get("k")
    if k == "Unary" and g.get("op") == "!":
        v = _guard_on_variant(g["e"], variant)
        return None if v is None else (not v)
    if k == "Binary" and g.get("op") in ("&&", "||"):
        a, b = _guard_on_variant(g["l"], variant), _guard_on_variant(g["r"], variant)
        if g["op"] == "&&":
            return False if (a is False or b is False) else (True if (a is True and b is True) else None)
        return True if (a is True or b is True) else (False if (a is False and b is False) else None)
    if k == "Match" and len(g.get("arms", [])) == 2 and all(a.get("guard") is None for a in g["arms"]):
        vals = [lit_value(a["body"]) for a in g["arms"]]
        if all(isinstance(v, bool) for v in vals) and "quick_xml::events::Event" in (peel(g["scrut"]).get("ty") or ""):
            for a, v in zip(g["arms"], vals):
                if pat_covers(a["pat"], [variant]):
                    return v
    return None


def r_eof(ctx, rep, files=None, floor=15):
    n = 0
    for cfg in ctx.configs():
        F = ctx.facts(cfg)
        for fn in F.fns:
            if files and fn.file not in files:
                continue
            for em in event_matches(fn):
                if em["loop"] is None:
                    continue
                n += 1
                chain = _chain(em["wrapped"], "Eof")
                verdict = None
                for i, arm in enumerate(em["match"]["arms"]):
                    if not pat_covers(arm["pat"], chain):
                        continue
                    if arm.get("guard") is not None:
                        gv = _guard_on_variant(arm["guard"], "Event::Eof")
                        if gv is not True:
                            continue   # does not fire on Eof, or may not
                    leaves = always_leaves(arm["body"], em["targets"])
                    verdict = (i, arm, leaves)
                    break
                key = "%s|R-EOF|loop#%d" % (fn.name, _loop_ordinal(fn, em["loop"]))
                where = loc(em["match"])
                if verdict is None:
                    rep.violation("R-EOF", key, where, "no unguarded arm covers Event::Eof")
                    continue
                i, arm, leaves = verdict
                if leaves:
                    rep.holds("R-EOF", key + "@" + cfg if cfg != "default" else key, where,
                              "first unguarded arm covering Event::Eof (arm %d at %s) leaves the loop" % (i, loc(arm)))
                else:
                    rep.violation("R-EOF", key, loc(arm),
                                  "pull loop at %s in %s: the first unguarded arm that matches Event::Eof (arm %d, `%s`) falls through to the next iteration; quick-xml keeps returning Eof once the part is exhausted, so a truncated part makes this loop spin forever" % (
                                      where, fn.name, i, _pat_text(arm["pat"])))
    rep.floor("R-EOF", floor, "quick-xml pull loops")


def _loop_ordinal(fn, loop):
    i = 0
    for n in walk_k(fn.body, "Loop"):
        if _has_event_match_directly(n):
            if n is loop:
                return i
            i += 1
    return -1


def _has_event_match_directly(loop):
    for n, anc in walk_anc(loop["body"]):
        if n.get("k") == "Match" and _contains_read_event(n["scrut"]):
            # nearest loop ancestor inside `loop`?
            if not any(a.get("k") == "Loop" for a in anc):
                return True
    return False


def _pat_text(p):
    k = p.get("k")
    if k == "Wild":
        return "_"
    if k == "Binding":
        return p["name"]
    if k == "TupleStruct":
        return "%s(%s)" % ((pat_variant(p) or "?").rsplit("::", 1)[-1], ", ".join(_pat_text(x) for x in p["pats"]))
    if k == "PLit":
        return (pat_variant(p) or "lit").rsplit("::", 1)[-1]
    if k == "Ref":
        return "&" + _pat_text(p["pat"])
    if k == "Or":
        return " | ".join(_pat_text(x) for x in p["pats"])
    return k


# ----------------------------------------------------------------------------------------------


def _uses_binding(e, lids):
    for n in walk_k(e, "Path"):
        r = n.get("res", {})
        if r.get("lid") in lids and "local" in r:
            return True
    return False


def _appends_text(body, lids):
    """Does `body` call String::push_str / push / extend with an argument derived from the bound event?"""
    for n in walk_k(body, "MethodCall"):
        c = callee(n) or ""
        if c in ("alloc::string::String::push_str", "alloc::string::String::push") or c.endswith("::extend_from_slice") or c.endswith("::write_str"):
            if any(_uses_binding(a, lids) for a in n["args"]):
                return n
    return None


def _assigns_text(body, lids):
    """`acc = <expr of the bound event>` with a String-typed left-hand side"""
    for n in walk_k(body, "Assign"):
        t = (peel(n["l"]).get("ty") or "")
        if "String" in t and _uses_binding(n["r"], lids):
            return n
    return None


def r_cdata(ctx, rep, floor=15):
    """Subjects: event matches with an arm `Event::Text(b)` whose body appends b to a string."""
    F = ctx.facts("default")
    for fn in F.fns:
        ordinal = 0
        for em in event_matches(fn):
            text_arm = None
            for arm in em["match"]["arms"]:
                if _arm_event_variant(arm, em["wrapped"]) == "Text":
                    lids = {lid for _, lid in pat_bindings(arm["pat"])}
                    if _appends_text(arm["body"], lids) or _assigns_text(arm["body"], lids):
                        text_arm = (arm, lids)
                        break
            if not text_arm:
                continue
            arm, lids = text_arm
            base = "%s|R-CDATA|textmatch#%d" % (fn.name, ordinal)
            ordinal += 1
            # (0) the content of one element can arrive in several Text / CData events (a CDATA section, comment or
            # processing instruction splits it): every piece is appended, never assigned over the previous ones
            asg = _assigns_text(arm["body"], lids)
            if asg is not None:
                rep.violation("R-CDATA", base + "|append", loc(asg),
                              "in %s the Event::Text payload is assigned to the accumulator instead of appended: text that reaches the reader in several pieces (text, CDATA, text) keeps only the last piece" % fn.name)
            else:
                rep.holds("R-CDATA", base + "|append", loc(arm), "Event::Text payload is appended to the accumulator")
            # (a) Text goes through unescape()
            unesc = [n for n in walk_k(arm["body"], "MethodCall") if (callee(n) or "").endswith("BytesText::unescape") and _uses_binding(n["recv"], lids)]
            if unesc:
                rep.holds("R-CDATA", base + "|unescape", loc(arm), "Event::Text payload is appended through BytesText::unescape()")
            else:
                rep.violation("R-CDATA", base + "|unescape", loc(arm),
                              "in %s the text of an Event::Text is appended without BytesText::unescape(): XML entities (&amp; &lt; &#10; ...) would reach the cell text undecoded" % fn.name)
            # (b) a CData arm that appends
            cd = None
            for a2 in em["match"]["arms"]:
                if _arm_event_variant(a2, em["wrapped"]) == "CData":
                    l2 = {lid for _, lid in pat_bindings(a2["pat"])}
                    if _appends_text(a2["body"], l2):
                        cd = a2
            if cd is not None:
                rep.holds("R-CDATA", base + "|cdata", loc(cd), "Event::CData is appended alongside Event::Text")
            else:
                rep.violation("R-CDATA", base + "|cdata", loc(arm),
                              "in %s the match that accumulates Event::Text has no arm appending Event::CData: text stored as <![CDATA[..]]> reads back as an empty string" % fn.name)
            # (c) every piece counts: no arm of the same match takes Text / CData events without appending them, and the
            # appending arms are not guarded (a whitespace-only text node inside an element is content, not indentation)
            swallow = None
            for a3 in em["match"]["arms"]:
                if _arm_event_variant(a3, em["wrapped"]) in ("Text", "CData"):
                    l3 = {lid for _, lid in pat_bindings(a3["pat"])}
                    if a3.get("guard") is not None and not a3.get("guard_from_body"):
                        swallow = (a3, "is guarded")
                        break
                    if not (_appends_text(a3["body"], l3) or _assigns_text(a3["body"], l3)):
                        swallow = (a3, "does not append its payload")
                        break
            if swallow:
                rep.violation("R-CDATA", base + "|every-piece", loc(swallow[0]),
                              "in %s an Event::Text / Event::CData arm of the text-accumulating match %s: some pieces of an element's text (a blank between two spans, a piece that looks like indentation) never reach the value" % (fn.name, swallow[1]))
            else:
                rep.holds("R-CDATA", base + "|every-piece", loc(arm), "every Text / CData arm of the match appends, unguarded")
    rep.floor("R-CDATA", floor, "text accumulating event matches")


# ----------------------------------------------------------------------------------------------

NAME_FNS = ("quick_xml::events::BytesStart::name", "quick_xml::events::BytesEnd::name")
LOCAL_FNS = ("quick_xml::events::BytesStart::local_name", "quick_xml::events::BytesEnd::local_name")


def _name_kind(e):
    """'name' / 'local' when e is (a view of) X.name() / X.local_name(); 'const' for literals
    (also QName(lit)); ('param', lid) / ('local', lid) for plain variables; None otherwise."""
    e = peel(e)
    if not isinstance(e, dict):
        return None
    k = e.get("k")
    if k == "MethodCall":
        c = callee(e) or ""
        if c in NAME_FNS:
            return "name"
        if c in LOCAL_FNS:
            return "local"
        if e["name"] in ("as_ref", "into_inner", "into", "borrow", "deref") or c.endswith("::as_ref") or c.endswith("::into"):
            return _name_kind(e["recv"])
        return None
    if k == "Lit":
        return "const"
    if k == "Call":
        d = callee(e) or ""
        if d.endswith("QName") or d.endswith("LocalName"):
            return _name_kind(e["args"][0]) if e.get("args") else None
        if d.endswith("::from") or d.endswith("::into"):
            return _name_kind(e["args"][0]) if e.get("args") else None
        return None
    if k == "Path":
        r = e.get("res", {})
        if "local" in r:
            return ("var", r["lid"], r["local"])
        if "cval" in r or r.get("dk") in ("Const", "Static", "AssocConst"):
            return "const"
    if k == "Index":
        return _name_kind(e["e"])
    return None


def _param_lids(fn):
    """local ids bound by the fn's parameter patterns -> parameter index"""
    out = {}
    for i, p in enumerate(fn.params):
        for _, lid in pat_bindings(p):
            out[lid] = i
    return out


def _arg_kinds_at_callsites(F, fn, pidx):
    kinds = []
    for g in F.fns:
        for n in walk_k(g.body, "Call", "MethodCall"):
            if callee(n) != fn.name:
                continue
            args = n["args"] if n["k"] == "Call" else [n["recv"]] + n["args"]
            if pidx < len(args):
                kinds.append((g, n, _name_kind(args[pidx])))
    return kinds


def r_ns(ctx, rep, floor=20):
    F = ctx.facts("default")
    n_cmp = 0
    for fn in F.fns:
        if not fn.file.startswith("src/xlsx/"):
            continue
        params = _param_lids(fn)
        ordinal = {}
        for n in walk_k(fn.body, "Binary"):
            if n["op"] not in ("==", "!="):
                continue
            lk, rk = _name_kind(n["l"]), _name_kind(n["r"])
            kinds = (lk, rk)
            if "name" not in kinds and "local" not in kinds:
                continue
            n_cmp += 1
            other = rk if lk in ("name", "local") else lk
            mine = lk if lk in ("name", "local") else rk
            lit = lit_value(n["r"]) if lk in ("name", "local") else lit_value(n["l"])
            sig = "%s %s %s" % (mine, n["op"], other if isinstance(other, str) else "var")
            if other == "const":
                sig += " " + repr(_const_text(n["r"] if lk in ("name", "local") else n["l"]))
            key = "%s|R-NS|%s" % (fn.name, sig)
            ordinal[key] = ordinal.get(key, 0) + 1
            if ordinal[key] > 1:
                key += "#%d" % ordinal[key]
            if other == "const":
                if mine == "name":
                    rep.violation("R-NS", key, loc(n),
                                  "%s compares the qualified element name (`name()`) with the constant %r: a namespace-prefixed part (e.g. <x:%s>) is not recognised; use local_name()" % (
                                      fn.name, _const_text(n["r"] if lk == "name" else n["l"]), _const_text(n["r"] if lk == "name" else n["l"])))
                else:
                    rep.holds("R-NS", key, loc(n), "constant compared with local_name()")
            elif other in ("name", "local"):
                if other == mine:
                    rep.holds("R-NS", key, loc(n), "%s compared with %s" % (mine, other))
                else:
                    rep.violation("R-NS", key, loc(n), "%s compares a local_name() with a name(): they differ whenever the part uses a namespace prefix" % fn.name)
            elif isinstance(other, tuple):
                lid = other[1]
                if lid in params:
                    sites = _arg_kinds_at_callsites(F, fn, params[lid])
                    bad = [(g, c, k) for g, c, k in sites if k in ("name", "local") and k != mine]
                    if bad:
                        g, c, k = bad[0]
                        rep.violation("R-NS", key, loc(n),
                                      "%s compares %s() with its parameter `%s`, which %s fills from %s() at %s (%d call site(s) disagree): for a prefixed element the closing tag is never recognised" % (
                                          fn.name, "local_name" if mine == "local" else "name", other[2], g.name, "name" if k == "name" else "local_name", loc(c), len(bad)))
                    else:
                        rep.holds("R-NS", key, loc(n), "parameter `%s` is filled consistently at %d call site(s)" % (other[2], len(sites)))
                else:
                    rep.holds("R-NS", key, loc(n), "compared with local variable `%s` (not traced)" % other[2], nontrivial=False)
            else:
                rep.holds("R-NS", key, loc(n), "compared with an untracked expression", nontrivial=False)
    rep.floor("R-NS", floor, "element-name comparisons in src/xlsx")


def _const_text(e):
    for n in walk_k(e, "Lit"):
        v = n["v"]
        if isinstance(v, dict) and "v" in v:
            return v["v"]
    e = peel(e)
    if isinstance(e, dict) and e.get("k") == "Path":
        return (e.get("res", {}).get("def") or "?").rsplit("::", 1)[-1]
    return "?"


# ----------------------------------------------------------------------------------------------


def r_xmlcfg(ctx, rep, floor=3):
    for cfg in ctx.configs():
        F = ctx.facts(cfg)
        for fn in F.fns:
            ctors = [n for n in walk_k(fn.body, "Call") if (callee(n) or "").endswith("quick_xml::reader::Reader::from_reader") or (callee(n) or "") == "quick_xml::reader::buffered_reader::from_reader"]
            ctors += [n for n in walk_k(fn.body, "Call") if (callee(n) or "").endswith("Reader::from_str") and "quick_xml" in (callee(n) or "")]
            if not ctors:
                continue
            expand = None
            trim_true = None
            for n in walk(fn.body):
                if n.get("k") == "Assign":
                    l = peel(n["l"])
                    if isinstance(l, dict) and l.get("k") == "Field" and l["name"] == "expand_empty_elements":
                        expand = (lit_value(n["r"]), n)
                    if isinstance(l, dict) and l.get("k") == "Field" and l["name"] in ("trim_text_start", "trim_text_end") and lit_value(n["r"]) is True:
                        trim_true = n
                if n.get("k") == "MethodCall" and n["name"] in ("trim_text", "trim_text_end") and n["args"] and lit_value(n["args"][0]) is not False:
                    trim_true = n
            base = "%s|R-XMLCFG" % fn.name
            sfx = "" if cfg == "default" else "@" + cfg
            for c in ctors:
                if expand and expand[0] is True:
                    rep.holds("R-XMLCFG", base + "|expand" + sfx, loc(c), "reader built at %s gets expand_empty_elements = true" % loc(c))
                else:
                    rep.violation("R-XMLCFG", base + "|expand", loc(c),
                                  "%s builds a quick_xml reader without `expand_empty_elements = true`: self-closing elements (<c/>, <si/>, <text:p/>) would arrive as Event::Empty, which no loop handles" % fn.name)
                if trim_true is None:
                    rep.holds("R-XMLCFG", base + "|trim" + sfx, loc(c), "text trimming is not enabled")
                else:
                    rep.violation("R-XMLCFG", base + "|trim", loc(trim_true),
                                  "%s enables text trimming on a reader: leading/trailing spaces of cell text would be lost" % fn.name)
    rep.floor("R-XMLCFG", floor, "quick_xml reader constructions")


# ----------------------------------------------------------------------------------------------


def r_rph(ctx, rep):
    """In every event match that has a `t` text arm next to `rPh` arms, the phonetic flag is set on
    rPh start, cleared on rPh end, and the `t` arm is guarded by its negation."""
    F = ctx.facts("default")
    found = 0
    for fn in F.fns:
        for em in event_matches(fn):
            from .kit import virtual_arms
            arms = virtual_arms(em["match"])
            rph_arms = [a for a in arms if "rPh" in guard_literals(a)]
            if not rph_arms:
                continue
            found += 1
            base = "%s|R-RPH" % fn.name
            set_true, set_false = None, None
            flag = None
            for a in rph_arms:
                ev = _arm_event_variant(a, em["wrapped"])
                for n in walk_k(a["body"], "Assign"):
                    pl = path_local(n["l"])
                    v = lit_value(n["r"])
                    if pl and isinstance(v, bool):
                        if ev == "Start" and v is True:
                            set_true, flag = n, pl
                        if ev == "End" and v is False:
                            set_false = n
            if set_true is None or flag is None:
                rep.violation("R-RPH", base + "|set", loc(em["match"]), "%s: no flag is raised when an <rPh> (phonetic run) starts; its <t> children would be appended to the cell text" % fn.name)
                continue
            rep.holds("R-RPH", base + "|set", loc(set_true), "phonetic flag `%s` set on <rPh> start" % flag[0])
            if set_false is None:
                rep.violation("R-RPH", base + "|clear", loc(em["match"]), "%s: phonetic flag `%s` is never cleared on </rPh>: every <t> after the first phonetic run would be dropped" % (fn.name, flag[0]))
            else:
                rep.holds("R-RPH", base + "|clear", loc(set_false), "phonetic flag cleared on </rPh>")
            # the `t` arm guard must contain !flag
            t_arms = [a for a in arms if "t" in guard_literals(a) and _arm_event_variant(a, em["wrapped"]) == "Start"]
            ok = False
            for a in t_arms:
                for n in walk_k(a["guard"], "Unary"):
                    if n["op"] == "!" and path_local(n["e"]) and path_local(n["e"])[1] == flag[1]:
                        ok = True
            if t_arms and ok:
                rep.holds("R-RPH", base + "|guard", loc(t_arms[0]), "<t> arm is guarded by !%s" % flag[0])
            else:
                rep.violation("R-RPH", base + "|guard", loc(em["match"]), "%s: the <t> arm is not guarded by the phonetic flag: phonetic annotations would be concatenated into the cell text" % fn.name)
    if found == 0:
        rep.anchor_missing("R-RPH", "an event match with rPh arms (xlsx rich-text reader)")


# ----------------------------------------------------------------------------------------------


def r_part(ctx, rep):
    for cfg in ctx.configs():
        F = ctx.facts(cfg)
        n = 0
        for fn in F.fns:
            if not fn.file.startswith("src/xlsx/"):
                continue
            calls = [c for c in walk_k(fn.body, "MethodCall") if c["name"] in ("by_name", "by_name_decrypt", "by_name_seek", "index_for_name", "index_for_path", "by_path") and "zip::" in (norm_ty(peel(c["recv"]).get("ty", "")) + (callee(c) or ""))]
            for c in calls:
                n += 1
                ci = any((callee(m) or "").endswith("eq_ignore_ascii_case") for m in walk_k(fn.body, "MethodCall"))
                arg = lit_value(c["args"][0]) if c["args"] else None
                key = "%s|R-PART|%s" % (fn.name, arg if arg is not None else "dynamic")
                sfx = "" if cfg == "default" else "@" + cfg
                if ci and arg is None:
                    rep.holds("R-PART", key + sfx, loc(c), "zip part opened with a name found by eq_ignore_ascii_case over file_names()")
                elif arg == "xl/vbaProject.bin":
                    rep.holds("R-PART", key + sfx, loc(c), "fixed VBA part name (not a worksheet part; audited exception)", nontrivial=False)
                else:
                    rep.violation("R-PART", key, loc(c),
                                  "%s opens a zip part by exact name (%s) instead of through the case-insensitive resolver: a workbook whose part names differ in case would not be read" % (fn.name, arg if arg is not None else "computed path"))
        if n == 0:
            rep.anchor_missing("R-PART", "ZipArchive::by_name call in src/xlsx")
